#!/usr/bin/env python3
"""C01 (real sockets): byte-stream fidelity over the listener x connector x TLS x io-mode pairing matrix.
Two real hops: hop A = listener L -> connector C, hop B = listener(C) -> direct -> origin.
L in {http, http+TLS, socks5, socks5+TLS, socks4, socks4a, reverse}; C in {direct, http, http+TLS, socks5,
socks5+TLS, socks4, quic, loadbalance[direct,http]}; useSplice in {true,false}; bufferSize in {1, 4096, 65536}.
Scripts per cell: early data glued to the handshake + echo; origin-first banner; bulk transfer in both directions at
once with position-dependent patterns and odd write sizes; concurrent tunnels with distinct patterns."""
import sys, json, ssl, itertools, select
sys.path.insert(0, '/verif/e4')
from lib import *
import ssl
from lib import _echo_loop

chk = Check('C01')
ensure_certs()
THOROUGH = tier() == 'thorough'
BULK = (1 << 20) if THOROUGH else (160 * 1024 + 7)
verdicts = {}
vlock = threading.Lock()

def cmd_origin(c, a, rec):
    """first line from the client decides: 'echo <tok>' | 'bulk <tok> <n>'"""
    c.settimeout(30)
    buf = b''
    while b'\n' not in buf:
        d = c.recv(4096)
        if not d:
            return
        buf += d
    line, rest = buf.split(b'\n', 1)
    parts = line.decode('latin1').split()
    if parts[0] == 'echo':
        if rest:
            c.sendall(rest)
        _echo_loop(c)
    elif parts[0] == 'slow':
        # reads late; the sender pauses after its burst and keeps the connection open: everything it sent must
        # arrive without it sending or closing anything more
        tok, n = parts[1], int(parts[2])
        time.sleep(0.8)
        got = rest
        c.settimeout(12)
        try:
            while len(got) < n:
                d = c.recv(65536)
                if not d:
                    break
                got += d
        except OSError:
            pass
        want = pattern(n, 23)
        with vlock:
            verdicts[tok] = (len(got), got == want, (next((i for i in range(min(len(got), n)) if got[i] != want[i]), None)))
        try:
            c.settimeout(20)
            while c.recv(65536):
                pass
        except OSError:
            pass
    elif parts[0] == 'sink':
        # the origin has nothing to say (ends its own direction at once) but keeps reading - slowly, from a small
        # receive window: the relay has to queue, and the client finishes while that queue is not empty
        tok, n = parts[1], int(parts[2])
        try:
            c.shutdown(socket.SHUT_WR)
        except OSError:
            pass
        time.sleep(1.0)
        got = bytearray(rest)
        how = 'eof'
        c.settimeout(15)
        try:
            while True:
                d = c.recv(65536)
                if not d:
                    break
                got += d
                time.sleep(0.002)
        except socket.timeout:
            how = 'timeout'
        except OSError as e:
            how = type(e).__name__
        want = pattern(n, 31)
        with vlock:
            verdicts[tok] = (len(got), bytes(got) == want, how)
    elif parts[0] == 'flood':
        # origin speaks first and stops the moment the proxy's socket towards the (not yet reading) client is full:
        # watched in /proc/net/tcp; then stays silent with the connection open
        tok, lport, cport = parts[1], int(parts[2]), int(parts[3])
        def txq():
            want_l, want_r = '0100007F:%04X' % lport, '0100007F:%04X' % cport
            try:
                for line in open('/proc/net/tcp').read().splitlines()[1:]:
                    f = line.split()
                    if f[1] == want_l and f[2] == want_r:
                        return int(f[4].split(':')[0], 16)
            except OSError:
                pass
            return None
        sent = 0
        same = 0
        last = -1
        piece = 0
        try:
            # (paced in small pieces with a look at the proxy's queue after each: the origin has to stop while the
            # proxy is still taking data from it - a proxy that is already blocked has nothing left to withhold.
            # Reading /proc/net/tcp is slow on a machine with many sockets: the pace drops, the logic does not care)
            c.settimeout(10)
            while sent < (64 << 20) and same < 2:
                c.sendall(pattern(8192, (piece * 7) & 0xff))
                sent += 8192
                piece += 1
                time.sleep(0.003)
                q = txq()
                if q is None:
                    break
                same = same + 1 if (q == last and q > 0) else 0
                last = q
            with vlock:
                verdicts[tok] = (sent, same >= 2, None)
            c.settimeout(20)
            c.recv(16)
        except OSError:
            with vlock:
                verdicts.setdefault(tok, (sent, False, None))
    elif parts[0] == 'burst':
        tok, n = parts[1], int(parts[2])
        try:
            c.sendall(pattern(n, 29))
            # pause with the connection open until the client has everything (it says so), then end the stream
            c.settimeout(20)
            c.recv(16)
            c.shutdown(socket.SHUT_WR)
            while c.recv(65536):
                pass
        except OSError:
            pass
    elif parts[0] == 'bulk':
        tok, n = parts[1], int(parts[2])
        want = pattern(n, 17)
        def sender():
            data = pattern(n, 91)
            off = 0
            sizes = itertools.cycle([1, 7, 4099, 65536, 13, 30011])
            try:
                while off < n:
                    k = next(sizes)
                    c.sendall(data[off:off + k])
                    off += k
            except OSError:
                pass
        t = threading.Thread(target=sender, daemon=True)
        t.start()
        got = rest
        try:
            while len(got) < n:
                d = c.recv(65536)
                if not d:
                    break
                got += d
        except OSError:
            pass
        t.join(20)
        with vlock:
            verdicts[tok] = (len(got), got == want, (next((i for i in range(min(len(got), n)) if got[i] != want[i]), None)))
        try:
            c.shutdown(socket.SHUT_WR)
        except OSError:
            pass
        time.sleep(0.2)

def deaf_then_reset(c, a, rec):
    # accepts, never reads; closes after a moment with unread data => RST
    time.sleep(1.0)
    c.close()
deaf = Origin(deaf_then_reset)
origin = Origin(cmd_origin)
banner_origin = Origin('echo', banner=b'BANNER-FROM-ORIGIN:')
TLSS = {'cert': f'{CERTS}/server.crt', 'key': f'{CERTS}/server.key'}
TLSC = {'ca': f'{CERTS}/ca.crt'}

def mk_hopB(splice, bufsz):
    p = {k: free_port() for k in ('http', 'https', 'socks', 'sockss', 'quic', 'api')}
    p['http6'] = free_port(host='::1'); p['socks6'] = free_port(host='::1')
    cfg = {'listeners': [
        {'name': 'http', 'bind': f"127.0.0.1:{p['http']}"},
        {'name': 'http6', 'type': 'http', 'bind': f"[::1]:{p['http6']}"},
        {'name': 'socks6', 'type': 'socks', 'bind': f"[::1]:{p['socks6']}"},
        {'name': 'https', 'type': 'http', 'bind': f"127.0.0.1:{p['https']}", 'tls': TLSS},
        {'name': 'socks', 'bind': f"127.0.0.1:{p['socks']}"},
        {'name': 'sockss', 'type': 'socks', 'bind': f"127.0.0.1:{p['sockss']}", 'tls': TLSS},
        {'name': 'quic', 'type': 'quic', 'bind': f"127.0.0.1:{p['quic']}", 'tls': TLSS}],
        'connectors': [{'name': 'direct'}], 'rules': [{'target': 'direct'}],
        'metrics': {'bind': f"127.0.0.1:{p['api']}", 'ui': None}, 'ioParams': {'bufferSize': bufsz, 'useSplice': splice}}
    px = Proxy(cfg, 'c01b')
    px.api_port = p['api']
    if not px.start([p['http'], p['https'], p['socks'], p['sockss'], p['api']]):
        machinery('hop B did not start: ' + px.log()[-400:])
    return px, p

def connector_cfg(cname, pb):
    return {
        'direct': [{'name': 'c', 'type': 'direct'}],
        'http': [{'name': 'c', 'type': 'http', 'server': '127.0.0.1', 'port': pb['http']}],
        'http+tls': [{'name': 'c', 'type': 'http', 'server': 'localhost', 'port': pb['https'], 'tls': TLSC}],
        'socks5': [{'name': 'c', 'type': 'socks', 'server': '127.0.0.1', 'port': pb['socks'], 'version': 5}],
        'socks5+tls': [{'name': 'c', 'type': 'socks', 'server': 'localhost', 'port': pb['sockss'], 'tls': TLSC}],
        'socks4': [{'name': 'c', 'type': 'socks', 'server': '127.0.0.1', 'port': pb['socks'], 'version': 4}],
        'quic': [{'name': 'c', 'type': 'quic', 'server': 'localhost', 'port': pb['quic'], 'bind': '127.0.0.1:0', 'tls': TLSC}],
        # the second hop reached over IPv6: whatever the proxy tells its client about the upstream socket is an IPv6 address then
        'http-v6': [{'name': 'c', 'type': 'http', 'server': '::1', 'port': pb['http6']}],
        'socks5-v6': [{'name': 'c', 'type': 'socks', 'server': '::1', 'port': pb['socks6'], 'version': 5}],
        'loadbalance': [{'name': 'd', 'type': 'direct'}, {'name': 'h', 'type': 'http', 'server': '127.0.0.1', 'port': pb['http']}, {'name': 'c', 'type': 'loadbalance', 'connectors': ['d', 'h'], 'algo': 'rr'}],
    }[cname]

CONNS = ['direct', 'http', 'http+tls', 'socks5', 'socks5+tls', 'socks4', 'quic', 'loadbalance', 'http-v6', 'socks5-v6']
LISTS = ['http', 'http+tls', 'socks5', 'socks5+tls', 'socks4', 'socks4a', 'reverse']

def mk_hopA(cname, pb, splice, bufsz):
    p = {k: free_port() for k in ('http', 'https', 'socks', 'sockss', 'rev', 'revb', 'api')}
    cfg = {'listeners': [
        {'name': 'http', 'bind': f"127.0.0.1:{p['http']}"},
        {'name': 'https', 'type': 'http', 'bind': f"127.0.0.1:{p['https']}", 'tls': TLSS},
        {'name': 'socks', 'bind': f"127.0.0.1:{p['socks']}"},
        {'name': 'sockss', 'type': 'socks', 'bind': f"127.0.0.1:{p['sockss']}", 'tls': TLSS},
        {'name': 'rev', 'type': 'reverse', 'bind': f"127.0.0.1:{p['rev']}", 'target': f'127.0.0.1:{origin.port}'},
        {'name': 'revb', 'type': 'reverse', 'bind': f"127.0.0.1:{p['revb']}", 'target': f'127.0.0.1:{banner_origin.port}'}],
        'connectors': connector_cfg(cname, pb), 'rules': [{'target': 'c'}],
        'metrics': {'bind': f"127.0.0.1:{p['api']}", 'ui': None}, 'ioParams': {'bufferSize': bufsz, 'useSplice': splice}}
    px = Proxy(cfg, 'c01a')
    px.api_port = p['api']
    if not px.start([p['http'], p['https'], p['socks'], p['sockss'], p['rev'], p['api']]):
        machinery(f'hop A ({cname}) did not start: ' + px.log()[-400:])
    return px, p

def tls_wrap(raw):
    ctx = ssl.create_default_context(cafile=f'{CERTS}/ca.crt')
    return ctx.wrap_socket(raw, server_hostname='localhost')

def open_tunnel(lname, pa, oport, early):
    """returns (socket, leftover bytes already read behind the handshake reply) or raises"""
    if lname in ('http', 'http+tls'):
        raw = socket.create_connection(('127.0.0.1', pa['http' if lname == 'http' else 'https']), timeout=8)
        s = tls_wrap(raw) if lname == 'http+tls' else raw
        s2, code, head, rest = http_connect(None, f'127.0.0.1:{oport}', early=early, sock=s, timeout=8)
        if code != 200:
            raise RuntimeError(f'CONNECT -> {head[:60]}')
        return s, rest
    if lname in ('socks5', 'socks5+tls'):
        raw = socket.create_connection(('127.0.0.1', pa['socks' if lname == 'socks5' else 'sockss']), timeout=8)
        s = tls_wrap(raw) if lname == 'socks5+tls' else raw
        s2, r = socks5_connect(None, '127.0.0.1', oport, early=early, sock=s, timeout=8)
        if r['rep'] != 0:
            raise RuntimeError(f'socks5 -> {r}')
        return s, b''
    if lname in ('socks4', 'socks4a'):
        host = '127.0.0.1' if lname == 'socks4' else 'localhost'
        s, r = socks4_connect(pa['socks'], host, oport, early=early, timeout=8)
        if len(r) < 2 or r[1] != 90:
            raise RuntimeError(f'socks4 -> {r.hex()}')
        return s, b''
    # reverse: no handshake, the first bytes are the early data
    s = socket.create_connection(('127.0.0.1', pa['rev' if oport == origin.port else 'revb']), timeout=8)
    if early:
        s.sendall(early)
    return s, b''

def duplex(s, data, n, got=b'', deadline_s=60):
    """send `data` and receive `n` bytes at the same time from ONE thread (an SSLSocket is not safe to use from two)."""
    import select
    s.setblocking(False)
    off = 0
    sizes = itertools.cycle([3, 70001, 1, 8191, 257])
    k = next(sizes)
    end = time.time() + deadline_s
    eof = False
    while (off < len(data) or (len(got) < n and not eof)) and time.time() < end:
        progressed = False
        if len(got) < n and not eof:
            try:
                d = s.recv(65536)
                if d:
                    got += d
                    progressed = True
                else:
                    eof = True
            except (ssl.SSLWantReadError, ssl.SSLWantWriteError, BlockingIOError):
                pass
            except OSError:
                eof = True
        if off < len(data):
            try:
                w = s.send(data[off:off + k])
                if w > 0:
                    off += w
                    k -= w
                    if k <= 0:
                        k = next(sizes)
                    progressed = True
            except (ssl.SSLWantReadError, ssl.SSLWantWriteError, BlockingIOError):
                pass
            except OSError:
                break
        if not progressed:
            select.select([s], [s] if off < len(data) else [], [], 0.05)
    s.setblocking(True)
    return got

tokn = [0]
def new_tok():
    with vlock:
        tokn[0] += 1
        return f't{tokn[0]}'

def script_early_echo(lname, pa):
    tok = new_tok()
    early = f'echo {tok}\n'.encode() + b'EARLY-DATA-0123456789'
    s, rest = open_tunnel(lname, pa, origin.port, early)
    try:
        got = rest + recv_exact(s, 21 - len(rest), 6)
        if got != b'EARLY-DATA-0123456789':
            return f'early-data:{("lost" if len(got) < 21 else "corrupted")} got {got!r}'
        for m in (b'x', b'second message', pattern(3000, 5)):
            s.sendall(m)
            r = recv_exact(s, len(m), 6)
            if r != m:
                return f'echo-after-early:{("lost" if len(r) < len(m) else "corrupted")} {len(r)}/{len(m)}'
        return 'ok'
    finally:
        s.close()

def script_banner(lname, pa):
    s, rest = open_tunnel(lname, pa, banner_origin.port, b'')
    try:
        want = b'BANNER-FROM-ORIGIN:'
        got = rest + recv_exact(s, len(want) - len(rest), 6)
        if got != want:
            return f'origin-first-banner:{("lost" if len(got) < len(want) else "corrupted")} got {got!r}'
        s.sendall(b'after-banner')
        if recv_exact(s, 12, 6) != b'after-banner':
            return 'echo-after-banner:lost'
        return 'ok'
    finally:
        s.close()

def script_bulk(lname, pa, n):
    tok = new_tok()
    s, rest = open_tunnel(lname, pa, origin.port, f'bulk {tok} {n}\n'.encode())
    try:
        want = pattern(n, 91)
        got = duplex(s, pattern(n, 17), n, rest)
        if got != want:
            bad = next((i for i in range(min(len(got), n)) if got[i] != want[i]), None)
            return f'bulk-origin-to-client:{("lost" if bad is None else "corrupted")} {len(got)}/{n} first bad offset {bad}'
        for _ in range(100):
            with vlock:
                v = verdicts.get(tok)
            if v:
                break
            time.sleep(0.05)
        if not v:
            return 'bulk-client-to-origin:origin never finished reading'
        if not v[1]:
            return f'bulk-client-to-origin:{("lost" if v[2] is None else "corrupted")} {v[0]}/{n} first bad offset {v[2]}'
        return 'ok'
    finally:
        s.close()

def script_slow_consumer(lname, pa, n):
    """the receiving end does not read for a while, so the proxy meets full socket buffers and short writes; the
    sender then PAUSES with the connection open (no further byte, no end of stream to flush anything out)"""
    tok = new_tok()
    s, rest = open_tunnel(lname, pa, origin.port, f'slow {tok} {n}\n'.encode())
    try:
        s.settimeout(30)
        s.sendall(pattern(n, 23))
        v = None
        for _ in range(300):
            with vlock:
                v = verdicts.get(tok)
            if v:
                break
            time.sleep(0.05)
        if not v:
            return 'slow-origin:origin still waiting for bytes 15 s after the client had sent everything (sender paused, connection open)'
        if not v[1]:
            return f'slow-origin:{("lost" if v[2] is None else "corrupted")} {v[0]}/{n} first bad offset {v[2]}'
    finally:
        s.close()
    tok = new_tok()
    s, rest = open_tunnel(lname, pa, origin.port, f'burst {tok} {n}\n'.encode())
    try:
        time.sleep(0.8)
        s.settimeout(12)
        got = rest
        try:
            while len(got) < n:
                d = s.recv(65536)
                if not d:
                    break
                got += d
        except OSError:
            pass
        want = pattern(n, 29)
        if got != want:
            bad = next((i for i in range(min(len(got), n)) if got[i] != want[i]), None)
            return f'slow-client:{("lost-or-withheld" if bad is None else "corrupted")} {len(got)}/{n} first bad offset {bad} (origin paused after its burst, connection open)'
        try:
            s.sendall(b'thanks')
        except OSError:
            pass
        return 'ok'
    finally:
        s.close()

def script_half_closed_sink(lname, pa, n):
    """the origin ends its own direction first and reads slowly; the client pushes n bytes and ends: once both directions
    have ended the proxy closes its sockets - with part of the stream possibly still queued in them"""
    tok = new_tok()
    s, rest = open_tunnel(lname, pa, origin.port, f'sink {tok} {n}\n'.encode())
    try:
        s.settimeout(60)
        s.sendall(pattern(n, 31))
        try:
            (s.unwrap() if isinstance(s, ssl.SSLSocket) else s).shutdown(socket.SHUT_WR)
        except (OSError, ValueError):
            pass
        v = None
        for _ in range(500):
            with vlock:
                v = verdicts.get(tok)
            if v:
                break
            time.sleep(0.05)
        if not v:
            return 'half-closed-sink:origin still reading 25 s after the client had sent everything and ended'
        if not v[1] or v[2] != 'eof':
            return f'half-closed-sink:origin got {v[0]}/{n} bytes, then {v[2]}'
        return 'ok'
    finally:
        try:
            s.close()
        except OSError:
            pass

def script_tls_backpressure(lname, pa):
    """TLS towards the client, client not reading: the origin stops exactly when the proxy's socket is full and
    pauses; whatever the proxy has taken from the origin must still reach the client"""
    tok = new_tok()
    if lname == 'http+tls':
        raw = socket.create_connection(('127.0.0.1', pa['https']), timeout=8)
        lport = pa['https']
    else:
        raw = socket.create_connection(('127.0.0.1', pa['sockss']), timeout=8)
        lport = pa['sockss']
    cport = raw.getsockname()[1]
    s = tls_wrap(raw)
    cmd = f'flood {tok} {lport} {cport}\n'.encode()
    try:
        if lname == 'http+tls':
            _, code, head, rest = http_connect(None, f'127.0.0.1:{origin.port}', early=cmd, sock=s, timeout=8)
            if code != 200:
                return f'tunnel-not-established:{head[:40]!r}'
        else:
            _, r = socks5_connect(None, '127.0.0.1', origin.port, early=cmd, sock=s, timeout=8)
            rest = b''
            if r['rep'] != 0:
                return f'tunnel-not-established:{r}'
        v = None
        for _ in range(2400):
            with vlock:
                v = verdicts.get(tok)
            if v:
                break
            time.sleep(0.05)
        if not v or not v[1]:
            # the scenario did not build up (the path was not full and still within the time allowed): no verdict
            return f'inconclusive:the origin could not fill the path ({v})'
        n = v[0]
        time.sleep(0.3)
        got = len(rest)
        s.settimeout(4)
        try:
            while got < n:
                d = s.recv(1 << 20)
                if not d:
                    break
                got += len(d)
        except OSError:
            pass
        if got != n:
            return f'tls-backpressure:withheld {n - got} of {n} bytes (origin paused after its burst, connection open, client read for 4 s)'
        return 'ok'
    finally:
        try:
            s.sendall(b'x')
        except OSError:
            pass
        s.close()

def script_after_aborted_tunnel(lname, pa):
    """a tunnel is torn down while bytes are still staged inside the proxy (its origin never read and then reset);
    tunnels opened afterwards must carry exactly their own bytes"""
    s, rest = open_tunnel(lname, pa, deaf.port, b'')
    s.setblocking(False)
    t = time.time()
    sent = 0
    while time.time() - t < 1.6:
        try:
            sent += s.send(b'A' * 65536)
        except BlockingIOError:
            time.sleep(0.02)
        except OSError:
            break
    time.sleep(0.3)
    s.close()
    bad = []
    for i in range(6):
        tok = new_tok()
        msg = (f'B{i:02d}-own-bytes-of-this-tunnel-' + tok).encode()
        t2, rest2 = open_tunnel(lname, pa, origin.port, f'echo {tok}\n'.encode())
        try:
            t2.sendall(msg)
            got = rest2 + recv_exact(t2, len(msg) - len(rest2), 5)
            if got != msg:
                bad.append((i, got[:40]))
        finally:
            t2.close()
    if bad:
        return f'after-aborted-tunnel:bytes-of-another-connection {bad[:3]} (the aborted tunnel had pushed {sent} bytes of b"A")'
    return 'ok'

def run_cell(cell):
    lname, cname, splice, bufsz, pa = cell
    out = []
    n = 3000 if bufsz == 1 else BULK
    li, ci = LISTS.index(lname), CONNS.index(cname)
    slow = THOROUGH or (splice and (li + ci) % 2 == 0) or (not splice and (li + 2 * ci) % 7 == 0)
    for sname, fn in (('early+echo', lambda: script_early_echo(lname, pa)), ('banner', lambda: script_banner(lname, pa)), ('bulk', lambda: script_bulk(lname, pa, n)), ('slow-consumer', lambda: script_slow_consumer(lname, pa, 3000 if bufsz == 1 else (8 << 20)))):
        if sname == 'slow-consumer' and not slow:
            continue
        try:
            out.append((sname, fn()))
        except Exception as e:
            out.append((sname, f'tunnel-not-established:{e!r}'[:200]))
    if slow and lname in ('http', 'socks5', 'socks4') and bufsz != 1:
        try:
            out.append(('half-closed-sink', script_half_closed_sink(lname, pa, 6 << 20)))
        except Exception as e:
            out.append(('half-closed-sink', f'tunnel-not-established:{e!r}'[:200]))
    if lname in ('http', 'socks5') and cname in ('direct', 'http'):
        try:
            out.append(('after-aborted-tunnel', script_after_aborted_tunnel(lname, pa)))
        except Exception as e:
            out.append(('after-aborted-tunnel', f'exception:{e!r}'[:200]))
    if lname in ('http+tls', 'socks5+tls') and cname == 'direct':
        try:
            v = script_tls_backpressure(lname, pa)
            if v.startswith('inconclusive'):
                v = script_tls_backpressure(lname, pa)
            out.append(('tls-backpressure', v))
        except Exception as e:
            out.append(('tls-backpressure', f'exception:{e!r}'[:200]))
    if THOROUGH:
        # three concurrent bulk tunnels
        rs = run_parallel([0, 1, 2], lambda i: script_bulk(lname, pa, n // 2 + i * 1001), workers=3)
        for i, r in enumerate(rs):
            out.append((f'concurrent-bulk-{i}', r if isinstance(r, str) else f'exception:{r}'))
    return out

evals = 0
distinct = set()
samples = []
procs = []
cells = []
modes = [(True, 65536), (False, 65536), (False, 4096), (True, 4096)] + ([(False, 1), (True, 1)] if THOROUGH else [(False, 1)])
for splice, bufsz in modes:
    pB, pb = mk_hopB(splice, bufsz)
    procs.append(pB)
    for ci, cname in enumerate(CONNS):
        if bufsz != 65536 and cname not in ('direct', 'http', 'socks5') and not THOROUGH:
            continue
        pA, pa = mk_hopA(cname, pb, splice, bufsz)
        procs.append(pA)
        for li, lname in enumerate(LISTS):
            if not THOROUGH and bufsz != 65536 and (li + ci) % 3 != 0:
                continue
            cells.append((lname, cname, splice, bufsz, pa))
# ---- in parallel with the matrix: a tunnel that shares its upstream connection (the QUIC connector multiplexes every
#      request over one connection) while ANOTHER request through the same connector is not answered by the upstream
#      (its origin swallows connection attempts) and is given up: the tunnel's byte streams are not touched by that
sibling_result = {}
def sibling_failure():
    try:
        pBs, pbs = mk_hopB(True, 65536)
        pAs, pas = mk_hopA('quic', pbs, True, 65536)
        hole = socket.socket(); hole.setsockopt(socket.SOL_SOCKET, socket.SO_REUSEADDR, 1); hole.bind(('127.0.0.1', 0)); hole.listen(0)
        fillers = []
        dropping = False
        for _ in range(8):
            f = socket.socket(); f.settimeout(0.3)
            try:
                f.connect(hole.getsockname()); fillers.append(f)
            except OSError:
                f.close(); dropping = True
                break
        if not dropping:
            sibling_result['skipped'] = 'could not make the kernel drop connection attempts'
            return
        tok = new_tok()
        s, rest = open_tunnel('http', pas, origin.port, f'echo {tok}\n'.encode())
        s.settimeout(5)
        def unanswered():
            try:
                x, code, head, r = http_connect(pas['http'], '127.0.0.1:%d' % hole.getsockname()[1], timeout=25)
                sibling_result['sibling_answer'] = code
                x.close()
            except OSError as e:
                sibling_result['sibling_answer'] = type(e).__name__
        th = threading.Thread(target=unanswered, daemon=True); th.start()
        t0 = time.time()
        n = 0
        bad = None
        while time.time() - t0 < 13.0 and bad is None:
            msg = pattern(64, n & 0xff) + b'%08d' % n
            try:
                s.sendall(msg)
                got = recv_exact(s, len(msg), 4)
            except OSError as e:
                got = b''
            if got != msg:
                bad = f'message {n} ({time.time() - t0:.1f} s into the scenario): sent {len(msg)} bytes, got {len(got)} back'
            n += 1
            time.sleep(0.05)
        if bad is None:
            blob = pattern(1 << 20, 77)
            r = duplex(s, blob, len(blob))
            if r != blob:
                bad = f'1 MiB after the sibling was given up: {len(r)} of {len(blob)} bytes came back' + ('' if len(r) != len(blob) else ' (changed)')
        sibling_result.update({'messages': n, 'broken': bad})
        for f in fillers:
            f.close()
        hole.close()
        try: s.close()
        except OSError: pass
        pAs.stop(); pBs.stop()
    except Exception as e:
        sibling_result['machinery'] = repr(e)
# ---- upstream proxies that dress their 200 (real ones do): headers that mean nothing in a reply to CONNECT, then the
#      origin speaks first - glued to the reply or a little later: every origin byte reaches the client
def dressed_upstream(splice):
    up = Origin(fake_http_proxy)
    q = {k: free_port() for k in ('http', 'socks', 'api')}
    pd = Proxy({'listeners': [{'name': 'http', 'bind': f"127.0.0.1:{q['http']}"}, {'name': 'socks', 'bind': f"127.0.0.1:{q['socks']}"}],
                'connectors': [{'name': 'c', 'type': 'http', 'server': '127.0.0.1', 'port': up.port}], 'rules': [{'target': 'c'}],
                'metrics': {'bind': f"127.0.0.1:{q['api']}", 'ui': None}, 'ioParams': {'bufferSize': 65536, 'useSplice': splice}}, 'c01d')
    pd.api_port = q['api']
    if not pd.start([q['http'], q['socks'], q['api']]):
        machinery('dressed upstream: proxy did not start')
    out = []
    try:
        for k in (0, 7, 50, 5000):
            for n in (43, 300):
                for how in ('glued', 'later'):
                    for client in ('http', 'socks5'):
                        host = f'dressed-{k}-{n}-{how}.test'
                        try:
                            if client == 'http':
                                s_, code, head, rest = http_connect(q['http'], f'{host}:80', timeout=5)
                                ok = code == 200
                            else:
                                s_, r = socks5_connect(q['socks'], host, 80, timeout=5)
                                ok, rest = r['rep'] == 0, b''
                            if not ok:
                                out.append((k, n, how, client, 'tunnel-not-established'))
                                s_.close()
                                continue
                            got = rest + recv_exact(s_, n - len(rest), 3)
                            s_.sendall(b'after-the-banner')
                            echo_ = recv_exact(s_, 16, 3)
                            s_.close()
                            out.append((k, n, how, client, 'ok' if (got == b'B' * n and echo_ == b'after-the-banner') else f'origin-first-bytes:{len(got)}-of-{n}-then-echo-{len(echo_)}'))
                        except OSError as e:
                            out.append((k, n, how, client, f'client-error:{e!r}'[:60]))
    finally:
        pd.stop(); up.stop()
    return out
dressed_results = {}
def dressed_thread():
    for sp_ in (True, False):
        try:
            dressed_results[sp_] = dressed_upstream(sp_)
        except Exception as e:
            dressed_results[sp_] = repr(e)
dressed_t = threading.Thread(target=dressed_thread, daemon=True)
dressed_t.start()
sibling_thread = threading.Thread(target=sibling_failure, daemon=True)
sibling_thread.start()
results = run_parallel(cells, run_cell, workers=16)
for cell, res in zip(cells, results):
    lname, cname, splice, bufsz, pa = cell
    if isinstance(res, tuple):
        machinery(f'{cell[:4]}: {res}')
    for sname, verdict in res:
        evals += 1
        distinct.add((lname, cname, sname, verdict.split(':')[0]))
        if verdict.startswith('inconclusive'):
            machinery(f'{lname} -> {cname} script {sname}: {verdict}')
        if verdict != 'ok':
            what = verdict.split(' ')[0]
            chk.violation(f'tunnel.{lname}->{cname}', f'{what}|splice={splice}|buffer={bufsz}', f'{lname} -> {cname} (useSplice={splice}, bufferSize={bufsz}) script {sname}: {verdict}', {'listener': lname, 'connector': cname, 'useSplice': splice, 'bufferSize': bufsz, 'script': sname})
    if len(samples) < 3:
        samples.append({'listener': lname, 'connector': cname, 'useSplice': splice, 'bufferSize': bufsz, 'scripts': res})
for p in procs:
    if not p.alive():
        chk.violation('process', 'proxy-died', f'exit {p.returncode()}: {p.log()[-300:]}', {})
    p.stop()
origin.stop(); banner_origin.stop(); deaf.stop()
dressed_t.join(180)
if dressed_t.is_alive():
    machinery('dressed upstream scenario did not finish')
for sp_, res in dressed_results.items():
    if isinstance(res, str):
        machinery(f'dressed upstream splice={sp_}: {res}')
    for k, n, how, client, verdict in res:
        evals += 1
        distinct.add(('dressed', k > 0, how, client, verdict.split(':')[0]))
        if verdict != 'ok':
            chk.violation(f'tunnel.{client}->http', f'upstream-reply-with-headers:{verdict.split(":")[0]}|splice={sp_}', f'{client} -> http connector (useSplice={sp_}): the upstream answers 200 with Content-Length: {k} (meaningless there), the origin then sends {n} bytes ({how}): {verdict}', {'client': client, 'content_length': k, 'banner': n, 'how': how, 'useSplice': sp_})
sibling_thread.join(60)
evals += 1
if sibling_thread.is_alive() or 'machinery' in sibling_result:
    machinery(f'sibling-failure scenario: {sibling_result.get("machinery", "did not finish")}')
if 'skipped' not in sibling_result:
    distinct.add(('sibling-failure', sibling_result.get('broken') is None))
    if sibling_result.get('broken'):
        chk.violation('tunnel.http->quic', 'stream-broken-by-a-sibling-request-that-failed', f'http -> quic: a tunnel exchanging messages while another request through the same connector went unanswered (answer to it: {sibling_result.get("sibling_answer")}): {sibling_result["broken"]}', {'result': {k: str(v) for k, v in sibling_result.items()}})
samples.append({'sibling_failure': {k: str(v) for k, v in sibling_result.items()}})
if evals < 100 or len(distinct) < 20:
    machinery(f'vacuous: evals={evals} distinct={len(distinct)}')
cov = {'evaluations': evals, 'distinct_nontrivial': len(distinct), 'transitions': evals, 'traces_validated_against_impl': evals,
       'rule': f'two real hops: listener {LISTS} x connector {CONNS} x (useSplice, bufferSize) in {modes} (quick: the full 7x10 matrix for both splice modes at 64 KiB, a rotation for the other buffer sizes); scripts: early data glued to the handshake + echo, origin-first banner, simultaneous bulk transfer of {BULK} bytes each way with position-dependent patterns and odd write sizes a receiver that does not read for 0.8 s while 8 MiB are sent at it, in each direction, ended by a half-close six fresh tunnels right after a tunnel was torn down with bytes still staged in the proxy (origin never read, then reset) (thorough: + three concurrent bulk tunnels)',
       'cells': len(cells), 'bulk_bytes': BULK, 'schedule_control': 'kernel', 'samples': samples}
sys.exit(chk.finish('model_checking', cov, ['E4 part: real loopback sockets, kernel scheduling uncontrolled; TPROXY and a QUIC client as first hop are out of reach (QUIC is covered as second hop)']))
