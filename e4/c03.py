#!/usr/bin/env python3
"""C03 (real binary): the destination the next hop is asked for, through the REAL connectors (the in-memory part
drives the codecs; what a connector does to the target before it calls them is only visible here). Client protocol
{socks5, http} x connector {http, socks5, socks4} x destination grid (IPv4 incl. 0.0.0.x, IPv6 incl. the ::/96 and
::ffff:/96 ranges, host names incl. hostile bytes, ports 0/1/65535): the fake upstream must be asked for exactly
the destination the client named, or for nothing (the client is refused)."""
import sys, json, ipaddress
sys.path.insert(0, '/verif/e4')
from lib import *

chk = Check('C03')
uph = Origin(fake_http_proxy)
ups = Origin(fake_socks_proxy)
p = {k: free_port() for k in ('http', 'socks', 'api')}
cfg = {'listeners': [{'name': 'http', 'bind': f"127.0.0.1:{p['http']}"}, {'name': 'socks', 'bind': f"127.0.0.1:{p['socks']}"}],
       'connectors': [{'name': 'h', 'type': 'http', 'server': '127.0.0.1', 'port': uph.port},
                      {'name': 's5', 'type': 'socks', 'server': '127.0.0.1', 'port': ups.port, 'version': 5},
                      {'name': 's4', 'type': 'socks', 'server': '127.0.0.1', 'port': ups.port, 'version': 4}],
       'rules': [{'filter': 'request.listener == "http" && request.target.port % 3 == 0', 'target': 'h'}],
       'metrics': {'bind': f"127.0.0.1:{p['api']}", 'ui': None}}
px = Proxy(cfg, 'c03')
px.api_port = p['api']
if not px.start([p['http'], p['socks'], p['api']]):
    machinery('proxy did not start: ' + px.log()[-400:])

V4 = ['1.2.3.4', '0.0.0.0', '0.0.0.1', '0.0.0.255', '0.0.1.0', '127.0.0.1', '255.255.255.255']
V6 = ['::1', '::', '::7f00:1', '::a01:203', '::ffff:1.2.3.4', '::ffff:0:1', '2001:db8::1', 'fe80::1', '::0.0.1.0', 'ffff:ffff:ffff:ffff:ffff:ffff:ffff:ffff']
NAMES = ['a.test', 'A.Test', 'x' * 63 + '.test', 'x' * 255, 'a b.test', 'a:1.test', '[::1]', 'a\tb', 'a\x00b', 'a\rb', 'a%20b', '#frag', 'xn--nxasmq6b.test', '-']
PORTS = [80, 0, 1, 65535]
CONNS = ['h', 's5', 's4']

def norm(host, port):
    """canonical form of a destination for comparison: address literals as addresses"""
    h = host.strip('[]')
    try:
        a = ipaddress.ip_address(h)
        # an IPv4-mapped IPv6 address is that IPv4 destination: one destination, two spellings
        if a.version == 6 and a.ipv4_mapped is not None:
            a = a.ipv4_mapped
        return ('ip', str(a), port)
    except ValueError:
        return ('name', host, port)

def ask(client, conn, kind, host, port):
    """returns (told_established, what the upstream was asked for or None)"""
    up = uph if conn == 'h' else ups
    with up.lock:
        before = len(up.conns)
    # the rule list is replaced per connector (one rule, so that routing is not in the way)
    try:
        if client == 'socks5':
            s, r = socks5_connect(p['socks'], host, port, timeout=4)
            told = r['rep'] == 0
        else:
            t = f'[{host}]:{port}' if kind == 'v6' else f'{host}:{port}'
            s, code, head, rest = http_connect(p['http'], t, timeout=4)
            told = code == 200
        s.close()
    except OSError:
        told = False
    time.sleep(0.03)
    with up.lock:
        new = up.conns[before:]
    asked = [c.get('target') for c in new if c.get('target') is not None]
    raw = [bytes(c.get('rx', b''))[:80] for c in new]
    return told, asked, raw

evals = 0
distinct = set()
samples = []
for conn in CONNS:
    st, body = px.api('POST', '/rules', json.dumps([{'target': conn}]))
    if st != 200:
        machinery(f'cannot route everything to {conn}: {st} {body[:100]}')
    dests = [('v4', h) for h in V4] + [('v6', h) for h in V6] + [('name', h) for h in NAMES]
    for client in ('socks5', 'http'):
        for kind, host in dests:
            if client == 'http' and kind == 'name' and any(ch in host for ch in ' \t\r\x00'):
                continue   # the request line cannot carry these: not a destination this client can ask for
            if client == 'socks5' and kind == 'name' and len(host.encode()) > 255:
                continue
            for port in (PORTS if host in ('1.2.3.4', '::1', 'a.test') else [80]):
                evals += 1
                told, asked, raw = ask(client, conn, kind, host, port)
                want = norm(host, port)
                distinct.add((conn, client, kind, told, len(asked)))
                rp = {'client': client, 'connector': conn, 'destination': f'{host}:{port}', 'told_established': told, 'upstream_asked_for': asked}
                cls_host = kind if kind != 'name' else ('name:' + ('hostile' if any(ch in host for ch in ' \t\r\x00:[]#%') else 'plain'))
                got = []
                for a in asked:
                    h2, _, p2 = a.rpartition(':')
                    try:
                        got.append(norm(h2, int(p2)))
                    except ValueError:
                        got.append(('unparsable', a, None))
                if any(g != want for g in got):
                    chk.violation(f'connector.{conn}', f'upstream-asked-for-another-destination:{cls_host}', f'{client} client asked for {host!r} port {port} through connector {conn}: the upstream was asked for {asked}', rp)
                elif told and not got:
                    chk.violation(f'connector.{conn}', f'told-established-without-asking-upstream:{cls_host}', f'{client} -> {conn}: {host!r}:{port}', rp)
                if len(samples) < 4 and kind == 'v6':
                    samples.append(rp)
# ---- UDP frame headers: every datagram of a one-to-many association goes to the destination ITS header names - by
#      name or by address, whatever the datagrams before it named. SOCKS5 UDP ASSOCIATE (and the same association
#      through an http hop) -> direct connector; two sinks A and B; all orders of four datagrams {name:A, addr:B,
#      name:B, addr:A} (`localhost` is answered from /etc/hosts)
def udp_headers(via_hop):
    import itertools as _it
    A, B = UdpOrigin(reply=False), UdpOrigin(reply=False)
    q = {k: free_port() for k in ('socks', 'api', 'hop', 'hapi')}
    hop = None
    if via_hop:
        hop = Proxy({'listeners': [{'name': 'http', 'bind': f"127.0.0.1:{q['hop']}"}], 'connectors': [{'name': 'direct'}], 'rules': [{'target': 'direct'}],
                     'metrics': {'bind': f"127.0.0.1:{q['hapi']}", 'ui': None}}, 'c03h')
        hop.api_port = q['hapi']
        if not hop.start([q['hop'], q['hapi']]):
            machinery('udp headers: hop did not start')
    conn = {'name': 'c', 'type': 'http', 'server': '127.0.0.1', 'port': q['hop']} if via_hop else {'name': 'c', 'type': 'direct'}
    pu = Proxy({'listeners': [{'name': 'socks', 'bind': f"127.0.0.1:{q['socks']}"}], 'connectors': [conn], 'rules': [{'target': 'c'}],
                'metrics': {'bind': f"127.0.0.1:{q['api']}", 'ui': None}}, 'c03u')
    pu.api_port = q['api']
    if not pu.start([q['socks'], q['api']]):
        machinery('udp headers: proxy did not start')
    out = []
    try:
        dests = [('localhost', 'A'), ('127.0.0.1', 'B'), ('localhost', 'B'), ('127.0.0.1', 'A')]
        for order in _it.permutations(range(4)):
            ctrl, r = socks5_connect(q['socks'], '0.0.0.0', 0, cmd=3, timeout=5)
            if r['rep'] != 0 or len(r['reply']) < 10:
                out.append((order, 'association-refused'))
                continue
            relay = ('127.0.0.1', struct.unpack('>H', r['reply'][8:10])[0])
            u = socket.socket(socket.AF_INET, socket.SOCK_DGRAM); u.bind(('127.0.0.1', 0))
            tag = ''.join(map(str, order)) + ('h' if via_hop else 'd')
            want = {'A': [], 'B': []}
            for i in order:
                host, sink = dests[i]
                port = (A if sink == 'A' else B).port
                payload = f'{tag}-{i}-{host}-{sink}'.encode()
                u.sendto(b'\0\0\0' + socks5_addr(host, port) + payload, relay)
                want[sink].append(payload)
                time.sleep(0.03)
            time.sleep(0.25)
            got = {k: [d for (_, d, _) in list(o.rx) if d.startswith(tag.encode() + b'-')] for k, o in (('A', A), ('B', B))}
            u.close(); ctrl.close()
            out.append((order, 'ok' if got == want else f"A got {[x.decode() for x in got['A']]}, B got {[x.decode() for x in got['B']]}"))
    finally:
        pu.stop(); A.stop(); B.stop()
        if hop:
            hop.stop()
    return out
for via_hop in (False, True):
    for order, verdict in udp_headers(via_hop):
        evals += 1
        distinct.add(('udp-headers', via_hop, verdict == 'ok'))
        if verdict != 'ok':
            chk.violation('udp.frame-header', f'datagram-sent-to-another-destination:{"via-http-hop" if via_hop else "direct"}', f'SOCKS5 UDP association{" through an http hop" if via_hop else ""}: datagrams named (in this order) {[["name:A", "addr:B", "name:B", "addr:A"][i] for i in order]}: {verdict}', {'order': list(order), 'via_hop': via_hop})

if not px.alive():
    chk.violation('process', 'proxy-died', f'exit {px.returncode()}: {px.log()[-300:]}', {})
px.stop(); uph.stop(); ups.stop()
if evals < 150 or len(distinct) < 10:
    machinery(f'vacuous: evals={evals} distinct={len(distinct)}')
cov = {'evaluations': evals, 'distinct_nontrivial': len(distinct), 'transitions': evals, 'traces_validated_against_impl': evals,
       'rule': 'real binary: client {socks5, http} x real connector {http, socks5, socks4} towards recording fake upstreams x destinations (7 IPv4 incl. 0.0.0.x, 10 IPv6 incl. ::/96 and ::ffff:/96, 16 host names incl. blanks, colons, brackets, NUL, 255 bytes) x ports {80, 0, 1, 65535} for three of them; the upstream is asked for exactly that destination or for nothing',
       'udp_frame_headers': 'SOCKS5 UDP association -> direct (and through an http hop): all 24 orders of four datagrams {name:A, addr:B, name:B, addr:A} reach exactly the sink their header names', 'schedule_control': 'kernel', 'samples': samples}
sys.exit(chk.finish('model_checking', cov, ['E4 part: the fake upstreams decode what they are sent the way lenient real servers do (last colon for CONNECT, SOCKS4a marker for 0.0.0.x)']))
