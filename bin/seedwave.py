#!/usr/bin/env python3
"""usage: bin/seedwave.py <N>  - prepares /tmp/seed<N>/ for a wave of seeding sub-agents (one per property):
template clone of /repo (pre-built), one clone wt-<ID> and one out-<ID> per property, prompts/<ID>.txt telling each
agent the property text and the earlier seeds for it (from /verif/seeded/*/meta.json), and confirm.sh.
Nothing here is used by any registered check; remove /tmp/seed<N> when the wave has been imported."""
import json, os, re, subprocess, sys
N = sys.argv[1]
R = f'/tmp/seed{N}'
os.makedirs(f'{R}/prompts', exist_ok=True)
if not os.path.exists(f'{R}/template'):
    subprocess.check_call(f'git clone -q /repo {R}/template && cd {R}/template && cargo build --offline -j 16 2>&1 | tail -1 && cargo test --workspace --offline --no-run -j 16 2>&1 | tail -1', shell=True)
props = {json.loads(l)['id']: json.loads(l) for l in open('/verif/properties.jsonl')}
prev = {}
for d in sorted(os.listdir('/verif/seeded')):
    pid = d.split('-')[0]
    m = json.load(open(f'/verif/seeded/{d}/meta.json'))
    slug = d.split('-', 1)[1]
    ch = re.sub(r'\s+', ' ', m.get('change', ''))[:420]
    prev.setdefault(pid, []).append(f'[{slug}] {ch}')
others = ' or '.join(f'/tmp/seed{i}' for i in ['', 2, 3, 4, 5, 6, 7, 8, 9] if str(i) != str(N))
for pid, p in props.items():
    anchors = ', '.join(p['anchors']['files'])
    earlier = '\n'.join(f'  ({i+1}) {c}' for i, c in enumerate(prev.get(pid, [])))
    t = f"""You are helping test a verification framework by writing a *seeded defect* for an open-source Rust project. Work ONLY inside the scratch git clone {R}/wt-{pid} (a checkout of MengJiangProject/redproxy-rs, a small Rust/tokio proxy router translating between HTTP CONNECT, SOCKS4/5, QUIC and TPROXY, with rule filters written in a bundled expression language "milu"). Do NOT read, write or list anything under /repo or /verif or {others} or any other {R}/wt-* directory. The sandbox has no network; build with `cargo ... --offline` (a pre-built target dir is already in {R}/wt-{pid}/target so builds are incremental). Keep CPU use modest (`-j 4`). Never run `pkill -f`/`killall` by pattern: kill only processes you started, by PID. Python 3 is available for socket-level demonstrations (standard library only).

Here is a semantic property the project is supposed to satisfy:

PROPERTY {pid}: {p['title']}
STATEMENT: {p['statement']}
QUANTIFIED OVER: {p['quantifier']['text']}
CODE ANCHORS: {anchors}

YOUR TASK: produce a realistic change to the project's source (under {R}/wt-{pid}/src or {R}/wt-{pid}/milu/src) that BREAKS this property, while
  (a) the project still compiles (`cd {R}/wt-{pid} && cargo build --offline -j 4`), and
  (b) the existing test suite still passes completely (`cd {R}/wt-{pid} && cargo test --workspace --offline -j 4` - all 78 tests pass), and
  (c) the breakage needs something SPECIFIC to manifest - a particular interleaving of tasks, a fault or disconnect at a particular point, a multi-step sequence of operations, an unusual input (boundary length, rare byte value, specific operator combination), a particular configuration value, or two cooperating code sites that each look fine alone. It must NOT be something ordinary use would expose at once (e.g. not 'every connection fails'). Think of the kind of subtle regression a real refactoring or 'optimisation' commit might introduce: an off-by-one on a boundary, a moved lock scope, a reordered statement, a cache keyed too coarsely, a dropped flush on one path, a wrong comparison operator, state hoisted to a wider scope, an error path that forgets cleanup, a counter updated on one path only, a limit applied in the wrong unit, a default that changed.
The change should be small (typically 1-15 lines) and look plausible. Do not just delete the feature or make it panic unconditionally.
Earlier testers already produced these changes for the same property:
{earlier}
Yours must be DIFFERENT from all of them: a different code site and a different way of breaking the property - preferably a clause of the statement or a region of the quantified space none of them touched (read the statement and the quantifier again and pick what is left).

Also write a DEMONSTRATION: a Rust test (may be added as a `#[cfg(test)]` test inside the source tree, as a separate patch) or a small script driving the built binary (target/debug/redproxy-rs -c <config.yaml>) on loopback sockets, that FAILS with your change applied and PASSES on the unchanged tree. Verify both directions yourself (use `git diff > file` / `git apply -R` inside your clone; do not use git stash).

If, while reading the code, you notice a way in which the UNCHANGED tree already violates the property, describe it in notes.md under a heading "Side observation", with the concrete input / sequence that shows it (it is not part of your seed).

DELIVERABLES, all written into {R}/out-{pid}/ :
  - patch.diff : `git diff` of ONLY the property-breaking source change (relative to HEAD, applies with `git apply` at the repo root). It must not include the demonstration.
  - demo.diff (or demo.sh / demo.py) : the demonstration, as a separate patch or script, with the exact command to run it in notes.md. A script takes the path of the binary as its optional first argument (default target/debug/redproxy-rs relative to the clone) and exits 0 = PASS, 1 = FAIL.
  - notes.md : what the change is, which file/lines, exactly what is needed for it to manifest (input / schedule / sequence / configuration), what you ran and the observed results with and without the change (test suite result, demo result).
When done, leave the clone with only patch.diff applied or clean (either is fine) and reply with a short summary (the content of notes.md). If after serious effort you cannot make a change satisfying (a)-(c), say so and explain.
"""
    open(f'{R}/prompts/{pid}.txt', 'w').write(t)
    if not os.path.exists(f'{R}/wt-{pid}'):
        subprocess.check_call(f'cp -r {R}/template {R}/wt-{pid}', shell=True)
    os.makedirs(f'{R}/out-{pid}', exist_ok=True)
open(f'{R}/confirm.sh', 'w').write(f'''#!/bin/bash
# usage: confirm.sh <ID> <py|diff> <arg-or-filter>
ID=$1; KIND=$2; ARG=$3; WT={R}/wt-$ID; OUT={R}/out-$ID
cd $WT || exit 1
git checkout -q -- . ; git clean -fdq -e target
run_demo() {{
  if [ $KIND = py ]; then
    A=${{ARG:-$WT/target/debug/redproxy-rs}}
    (cd $WT && timeout 300 python3 $OUT/demo.py $A > {R}/demo-$ID-$1.log 2>&1; echo "demo($1) exit=$?")
  else
    git apply $OUT/demo.diff || {{ echo "demo.diff does not apply"; return; }}
    cargo test --offline -j 16 $ARG 2>&1 | grep -E "^test result|FAILED|error(\\[|:)" | head -5 | sed "s/^/demo($1): /"
    git apply -R $OUT/demo.diff
  fi
}}
echo "== $ID with patch"
git apply $OUT/patch.diff || {{ echo "patch.diff does not apply"; exit 1; }}
cargo build --offline -j 16 2>&1 | grep -E "^error|Finished" | head -2
cargo test --workspace --offline -j 16 2>&1 | grep -E "^test result|FAILED" | tr '\\n' ' '; echo
run_demo patched
echo "== $ID unchanged"
git apply -R $OUT/patch.diff
cargo build --offline -j 16 2>&1 | grep -E "^error|Finished" | head -2
run_demo clean
git status --short | head -3
''')
os.chmod(f'{R}/confirm.sh', 0o755)
print('prepared', R)
