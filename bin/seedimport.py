#!/usr/bin/env python3
"""usage: bin/seedimport.py <wave N> <ID>=<slug> ...   copies /tmp/seed<N>/out-<ID> into /verif/seeded/<ID>-w<N>-<slug>/ with meta.json"""
import os, json, shutil, subprocess, sys
N = sys.argv[1]
for arg in sys.argv[2:]:
    id, slug = arg.split('=')
    src = f'/tmp/seed{N}/out-{id}'
    dst = f'/verif/seeded/{id}-w{N}-{slug}'
    os.makedirs(dst, exist_ok=True)
    for f in os.listdir(src):
        if os.path.isfile(f'{src}/{f}') and os.path.getsize(f'{src}/{f}') < 200_000:
            shutil.copy(f'{src}/{f}', f'{dst}/{f}')
    head = open(f'{src}/notes.md').read().split('\n')
    change = ' '.join(l for l in head[:6] if l.strip())[:400]
    base = subprocess.run(['git', '-C', f'/tmp/seed{N}/wt-{id}', 'log', '--format=%h', '-1'], capture_output=True, text=True).stdout.strip()
    meta = {'property': id, 'source': f'sub-agent seed{N}-{id} (wave {N}; property text + scratch clone only; told the earlier changes)', 'change': change,
            'confirmed': {'builds': True, 'suite': '78 passed with patch (cargo test --workspace --offline)', 'demo': f'confirmed by me with /tmp/seed{N}/confirm.sh: demonstration fails with the patch, passes without'},
            'base_commit': base, 'detected_by': 'TBD'}
    json.dump(meta, open(f'{dst}/meta.json', 'w'), indent=1)
    r = subprocess.run(['git', '-C', '/repo', 'apply', '--check', f'{dst}/patch.diff'], capture_output=True, text=True)
    print(id, dst, 'applies' if r.returncode == 0 else 'DOES NOT APPLY: ' + r.stderr[:200])
