#!/usr/bin/env python3
"""Generates /verif/MANIFEST.json from the table below (single source of truth for the interface)."""
import json, os, subprocess
ALL = ["C%02d" % i for i in range(1, 20)]
MC = "model_checking"
CHECKS = {
 "C08": dict(cat=MC, engine="E2 xseq (bounded-exhaustive enumeration on the real checker/evaluator)",
   technique="bounded-exhaustive enumeration of expression trees (depth<=2, depth-3 slice, exhaustive let-scoping family) through the real type checker and evaluator under 6 request environments vs reference typing + checked-i64 reference interpreter",
   text="Every tree with one operator over the leaf set, every tree with one operator over leaves plus one representative depth-1 tree per (static type, outcome) class, (thorough) a depth-3 slice, and a scoping family (7 040 trees: 4 literals x 10 aggregate shapes mentioning a let-bound name x 16 uses x {plain, aggregate leaves the name's scope, sibling binding, name re-bound to each of 4 literals in a nested / the same let}) are type-checked and, if accepted, evaluated by the real code under catch_unwind; oracle: no panic, runtime kind equals static type for both the raw and the coerced pair, value equals the lexically scoped reference interpreter where it is specified, every evaluation failure is one of the inherently dynamic errors (classified by its text), ill-typed scalar trees are rejected at load.",
   note="Trusts: harness profile (overflow-checks on, like the repo's dev profile); reference interpreter leaves regex matching/to_string-of-composites unspecified and accepts both lazy and strict evaluation of aggregate members (the statement fixes neither). Not covered: trees deeper than the slice, identifiers other than let-bound x,y and request.*.",
   ref="DESIGN.md §3 C08"),
 "C09": dict(cat=MC, engine="E2 xseq (bounded-exhaustive enumeration on the real parser)",
   technique="bounded-exhaustive enumeration of operator chains and token-boundary fillers on the real milu parser vs precedence-climbing reference derived from milu/readme.md",
   text="Every operator spelling alone, all ordered pairs/triples (thorough: 4-chains) of the 23 binary operators, unary/postfix/ternary combinations and 9 blank/comment fillers at every token boundary are parsed by the real parser and compared with a reference tree built from the README table; exhaustive within these shapes.",
   note="Trusts: README table as the spec; the harness' symbol->constructor mapping; Value's PartialEq. Not covered: chains >4 operators, arbitrary deep trees.",
   ref="DESIGN.md §3 C09"),
}
CHECKS["C11"] = dict(cat=MC, engine="E2 xseq (bounded-exhaustive datagram sequences on the real reassembler)",
   technique="exhaustive enumeration of fragment arrival orders, duplicates, frame interleavings, malformed mixes and expiry event sequences on the real Fragments type vs list-based reference reassembler",
   text="Size x MTU grid (13 MTUs, boundary sizes, real Frame and transparent buffer); every permutation of <=6 (thorough 7) fragments with one duplicate of any fragment at any position; every arrival order of 2-3 frames; 10 malformed datagrams (and pairs) at every position; structured (thorough: all length<=6) expiry sequences with id reuse on the real clock; id wrap. Compared with the reference after every datagram.",
   note="Trusts: list reference as the spec; real clock for expiry (ambiguous timings are discarded, never judged). MTU >= 5. Frames needing >255 fragments are 'not representable' (may be dropped, never mangled). Two-writer id collisions are checked under C10.",
   ref="DESIGN.md §3 C11")
CHECKS["C12"] = dict(cat=MC, engine="E1 xsched, environment-only form (segmentation enumeration over an in-memory AsyncRead)",
   technique="exhaustive enumeration of network segmentations (all 2^(n-1) for short inputs, all 1-/2-cut sets + bytewise otherwise) and of every truncation point, on the real decoders vs single-segment baseline",
   text="69 valid messages of every stream codec (HTTP request/response heads, SOCKS4/4a/5 negotiation+request, replies, 1-3 RPFM frames) with 0/1/5 bytes of trailing payload are decoded by the real decoders under every enumerated segmentation; parsed message and unread remainder must equal the single-segment run; EOF after every proper prefix must not yield a message.",
   note="Trusts: the in-memory stream (one segment per poll_read). Not covered: all subsets of cuts for messages longer than 14 (thorough 18) bytes.",
   ref="DESIGN.md §3 C12")
CHECKS["C05"] = dict(cat=MC, engine="E2 xseq (bounded-exhaustive input enumeration on the real decoders under catch_unwind) + E4 real binary (process-level liveness)",
   technique="bounded-exhaustive enumeration of byte strings, header grids, datagram sequences and upstream replies on the real decoders, plus never-ending inputs for every terminator-delimited field; oracle: returns within a poll budget, never panics, never buffers without bound",
   text="Every (id,total,seq) fragment header, all 2-(thorough 3-)datagram sequences over a 98-header alphabet, a structured RPFM header/attribute grid through the stream reader / from_buffer / fragment layer with every truncation, the SOCKS-UDP header grid, all byte strings up to length 5 (thorough 6) over 12-symbol alphabets for the HTTP and SOCKS decoders, every single-byte substitution/deletion of every valid message, 25 request heads through the real h11c_handshake and 22 upstream replies x feature x channel through the real h11c_connect; each of the 11 terminator-delimited fields (request/status line, header line/value/count, SOCKS4 user id, SOCKS4a host) is fed a never-ending input and must be given up within 1 MiB. Real binary (panic=abort): malformed heads / negotiations / frames / upstream replies on every listener, disconnects (FIN and RST) at every byte offset of the http, socks5 and socks4 handshakes, stalled clients, junk datagrams on the UDP/QUIC ports, RLIMIT_NOFILE=64 with 240 idle connections, and 8 never-ending fields (client and upstream side) against a process limited to 768 MiB of data; after each batch the process must be alive and every listener and the API must still serve.",
   note="A caught panic stands for a process abort (panic='abort'). Trusts the harness profile (overflow checks on). Not covered: TPROXY, memory exhaustion by many connections each within its bounds, QUIC transport-parameter abuse.",
   ref="DESIGN.md §3 C05")
CHECKS["C03"] = dict(cat=MC, engine="E2 xseq (bounded-exhaustive destination grid through the real codecs)",
   technique="exhaustive destination grid (host length x hostile byte x position, IPs, ports) through every real inbound decoder and outbound encoder; outputs parsed by an independent strict reference decoder and by the repo's own decoder",
   text="Every destination of the grid is expressed in each of 6 inbound protocols and decoded by the real decoder (what the rules see must be what the client asked, remaining bytes must be exactly the payload); every TargetAddress reachable that way goes through each of 5 real outbound encoders; the emitted bytes must be refused, or parse - by a strict reference decoder and by the repository's own decoder - to exactly the same destination with nothing spilled. Pairs are covered by composition through the TargetAddress value.",
   note="Trusts: the reference decoders (RFC 1928 / SOCKS4a layout, HTTP request-line grammar, RPFM layout from frames.rs); IP-literal host strings compare as addresses. Not covered: DNS resolution, hosts longer than 1000 bytes.",
   ref="DESIGN.md §3 C03")
CHECKS["C02"] = dict(cat=MC, engine="E2 xseq (all rule lists x request grid through the real set_rules + process_request)",
   technique="exhaustive enumeration of rule lists (length<=3, thorough 4, over 12 rule shapes) x request grid x upstream feature sets on the real process_request with recorder connectors vs first-match reference; CIDR prefix/boundary grid vs bit-mask reference",
   text="Every rule list up to length 3 (thorough: 4) over {no filter, two request-dependent filters, a filter that fails to evaluate} x {A,B,deny}, for 12 (thorough 96) requests and two upstream feature sets, is installed with the real set_rules and decided by the real process_request; exactly the predicted recorder is contacted once (or none), the recorded connector matches, refusal runs on_error only and no payload byte reaches an origin. All request attributes and cidr_match (every prefix length, network boundaries, both families) are compared with the connection's values / bit-mask containment.",
   note="Trusts: the 6-line reference and recorder connectors. Not covered: lists longer than 4; filters beyond the 4 classes (C08); real connectors' feature sets (C17 covers the balancer).",
   ref="DESIGN.md §3 C02")
CHECKS["C14"] = dict(cat=MC, engine="E1 xsched (deviation-bounded DFS over schedules of the real futures, scripted endpoints, paused tokio clock) + E4 real binary (stall matrix)",
   technique="stateless exhaustive exploration (DFS with replay, preemption/deviation bound 2, thorough 3) of all schedules of real handshake / API-handler / process_request / GC futures with a client stalled after k bytes for every k; deadlock/wedge oracle at every terminal state; real-socket enumeration of stalled state x probe with deadlines",
   text="For every stall offset k of an HTTP-style client, every API handler (live, history, rules GET/POST, metrics, logrotate, status), a complete fresh connection (create_context, handshake, routing, relay, finish), optionally a second stalled client, a request whose upstream never answers and the GC, every schedule within the deviation bound is executed on the real code; at quiescence only the stalled peers' own futures may remain blocked and the API call and the fresh connection must have been served. Real binary: a client stopped after k bytes of the handshake (every k in thorough) on http, socks5, socks5+auth, socks4, socks4a, inside and behind the TLS handshake of https / socks+tls; a hanging auth command; requests stuck on upstream proxies that never reply or are mute (http, socks, TLS); tunnels whose origin / client does not read (http, socks5, reverse); useSplice true/false; each state alone and all at once; 7 API calls and a fresh echo round trip on 8 listeners (incl. QUIC through a second proxy) must each finish within 3 s (observed worst 31 ms).",
   note="Trusts: the explorer's ownership of scheduling (replays compared; HashMap-order divergences retried). Handshake-phase writes are always accepted in memory. E4 part: kernel scheduling uncontrolled; a QUIC client stalled inside its own handshake, TPROXY and UDP sessions are not stalled.",
   ref="DESIGN.md §3 C14")
CHECKS["C17"] = dict(cat=MC, engine="E3 loom (real LoadBalanceConnector::connect, cursor as loom atomic) + E2 xseq",
   technique="loom exhaustive interleaving exploration (preemption bound 3, thorough 4) of 2-3 threads selecting through the real connect(); exhaustive sequential windows/offsets for round robin; hashBy stickiness over key expressions x request pool",
   text="Concurrent round robin: 2-3 loom threads x 1-3 selections each through the real connect() with the cursor switched to a loom atomic (H2), every interleaving: each member selected exactly k times, recorded member = used member. Sequential: member counts 1..5 x every cursor offset x every window; hashBy: 7 string key expressions (incl. bare request.target / request.source) x a 36-request pool in which equal key strings arise from different address forms, twice; non-string keys must be rejected by init; random: members only.",
   note="Trusts loom's model of the atomic; tokio locks of per-thread contexts are uncontended. The frequency clause of `random` is SAMPLED (4000 draws), labelled as such. Cursor wrap at usize::MAX out of reach.",
   ref="DESIGN.md §3 C17")
CHECKS["C15"] = dict(cat=MC, engine="E2 explicit-state BFS over reload histories + E1 xsched race exploration",
   technique="explicit-state BFS (state = canonical GET /rules output) over all reload events from every reachable state on the real handlers; stateless exhaustive schedule exploration (deviation bound 3, thorough 4) of rules_post racing process_request with injected lock contention",
   text="Histories: from every reachable rule-list state and from non-initial histories up to depth 3 (thorough 4), every event - POST of each of 4 valid lists, of each list broken at each position by a syntax error / type error / unknown target, GET-then-POST-back - runs through the real post_rules/get_rules handlers; after each event 6 probe requests are decided by the real process_request and compared with the first-match reference for the list that must be in force. Race: 1-2 rules_post callers, 2 process_request tasks whose decision distinguishes old, new and mixed evaluation, a request that starts after the POST returned, plus a read-holder gate and a no-op writer that make every lock acquisition a scheduling point.",
   note="Trusts: serde deserializer = the axum extractor's; lock-contention injector models other worker threads. main()'s dispatch loop and the HTTP layer are only reachable in the real binary (E4 part).",
   ref="DESIGN.md §3 C15")
CHECKS["C18"] = dict(cat=MC, engine="E2 xseq (single-node mutation enumeration through main()'s load sequence; child processes for abort hazards) + E4 real binary",
   technique="exhaustive single-node mutation of configuration documents through the real load/init/verify sequence under catch_unwind; all balancer member digraphs and rule-JSON mutations/nesting depths in child processes; real-binary --test / start-up / traffic grid",
   text="Every YAML node of three base documents is deleted, retyped (10 values), duplicated or given special names and loaded exactly as main() does; every member digraph on 1-2 (thorough 3) balancers + direct is loaded and probed with one request per balancer in a child process; a rule list with every field mutated (16 values) and 10 nesting forms at depths 10..10000 (thorough 100000) is posted through the real handler in a child process; 51 configuration mutants go through the real binary's --test, start-up, one request per listener, a rule POST naming every connector and a GC pass.",
   note="A child process dying stands for the proxy dying. load() mirrors main()'s sequence (Config::load's own validation and clap handling only via the real binary). Kernel scheduling uncontrolled in the E4 part.",
   ref="DESIGN.md §3 C18")
CHECKS["C16"] = dict(cat=MC, engine="E1 xsched (real registry + GC task + access log + API handlers, scripted clients) + E4 real binary (long history per configuration)",
   technique="stateless exhaustive schedule exploration (deviation bound 1, thorough 2) of 1-3 connections over 7 outcomes with observers and registry-lock holders; final live/history/access-log compared with a list reference; real-socket operation-pair enumeration over outcome x listener with checkpoints, close-order permutations and log rotation",
   text="Connections with every outcome (relayed, relayed with early data, denied, connect failed, aborted mid-transfer, handshake garbage, handshake EOF) run through the real create_context / h11c_handshake / process_request / relay with the real GC task, access log and API handlers; an observer calls /live at every position and a holder task keeps the alive or terminated lock across a scheduling point; after the last end and two GC periods: ids distinct, nothing live, history newest-first and bounded, every connection exactly once in the log, truthful listener/source/target/upstream, lifecycle grammar with exactly one terminal state, byte counters = payload relayed. Real binary, per (historySize in 0/1/3/100, useSplice): ordered pairs over 10 outcomes x {http, https, socks5, socks4, reverse} strictly one after the other, trios held open together and closed in all 6 orders with /live compared at each step, two concurrent bursts larger than the history with the log renamed and reopened (POST /logrotate, SIGUSR1) mid-burst; checkpoints compare /live, /history and the log files with what clients and origins did.",
   note="Access-log file I/O runs on tokio's blocking pool (real threads): the closing phase is executed but not branched on. Timestamps not compared. Only the HTTP-style listener path is in memory. E4 part: kernel scheduling uncontrolled; buffered log lines are flushed by a reopen before the log is read; UDP sessions, QUIC and TPROXY listeners are not in the real-socket history.",
   ref="DESIGN.md §3 C16")
CHECKS["C01"] = dict(cat=MC, engine="E1 xsched (real handshake -> routing -> upstream codec -> callbacks -> copy_bidi over scripted endpoints) + E4 real binary (two-hop pairing matrix)",
   technique="stateless exhaustive exploration (deviation bound 1, thorough 2) of schedules, 1-byte segmentations and write windows of the real relay chain for 4 upstream codecs; exact stream equality oracle; two-tunnel isolation; real-socket enumeration of the listener x connector x TLS x useSplice x bufferSize pairing matrix with bulk, early-data, origin-first and slow-receiver scripts",
   text="For upstream legs spoken by the real direct/HTTP/SOCKS5/SOCKS4 codecs, early data of 0-2 bytes glued to the CONNECT head, 0-2 later client messages, 0-2 origin messages (optionally glued to the upstream's reply), bufferSize 1/2/8 and back-pressure on both sides, every execution within the deviation bound must end with the origin having received exactly upstream-handshake + client payload and the client exactly the 200 head + origin payload; two concurrent tunnels with disjoint alphabets must never see each other's bytes. Real sockets: 7 listeners (http, http+TLS, socks5, socks5+TLS, socks4, socks4a, reverse) x 8 connectors (direct, http, http+TLS, socks5, socks5+TLS, socks4, quic, loadbalance) through a second real hop, useSplice true/false, bufferSize 1/4096/65536: early data glued to the handshake, origin-first banner, simultaneous bulk transfer both ways with position-dependent patterns and odd write sizes, 8 MiB at a receiver that reads late (full socket buffers, short writes) ended by a half-close, concurrent bulk tunnels.",
   note="In-memory upstream legs are harness connectors making the same calls as the real connectors after TCP connect, with few-byte payloads. E4 part: kernel scheduling uncontrolled; TPROXY and a QUIC client as first hop are out of reach.",
   ref="DESIGN.md §3 C01")
CHECKS["C06"] = dict(cat=MC, engine="E1 xsched (HTTP CONNECT side in memory) + E4 real binary with fake upstream proxies",
   technique="stateless exhaustive schedule exploration (deviation bound 2, thorough 3) of outcome class x upstream codec with a strict HTTP response parser on the client byte stream; real-socket grid client protocol x route x upstream behaviour with strict SOCKS/HTTP reply parsing and echo round trip",
   text="In memory: request ok x upstream {direct,http,socks5,socks4} x {accept, connect error, proxy says no, closes mid-handshake} plus denied, no rule, unsupported feature, bad method, bad protocol, bad target: exactly one reply, 200 iff the upstream leg is established, failure replies complete (body = Content-Length) and followed by close, no upstream contact for refused requests. Real sockets: {http, socks5, socks4/4a} x 19 routes through the real connectors against fake upstreams that accept / refuse / say no / close / send garbage, plus BIND, unknown command, UDP not allowed and authentication failures.",
   note="Kernel scheduling uncontrolled in the E4 part. Fake upstreams are Python servers.",
   ref="DESIGN.md §3 C06")
CHECKS["C04"] = dict(cat=MC, engine="E1 xsched (buffered relay, in memory) + E4 real binary in both I/O modes",
   technique="stateless exhaustive exploration (deviation bound 2, thorough 3) of end-of-stream / abort event placements over the real relay; real-socket enumeration of all half-close/close/abort operation sequences up to length 3 (thorough 4) in splice and buffered mode with a mode differential",
   text="In memory: 10 close patterns x 2 upstream codecs x back-pressure; the explorer places EOF and abort at every position: EOF reaches the peer only after all earlier bytes, the opposite direction keeps flowing (late messages after the peer's EOF), both sockets closed and Terminated / ErrorOccured recorded, no lingering relay after an abort. Real sockets: every valid sequence over {client write, origin write, client half-close, origin half-close} with terminal {none, client RST, origin RST, client close, origin close}, lock-step, useSplice true and false; observations must match the TCP reference and be identical in both modes; every connection must end up in /api/history with a terminal state.",
   note="Kernel scheduling uncontrolled in the E4 part (4 s one-sided deadlines). TLS variants are not covered.",
   ref="DESIGN.md §3 C04")
CHECKS["C13"] = dict(cat=MC, engine="E2 exhaustive traffic-pattern enumeration on the real copy_bidi (real clock) + E4 real binary",
   technique="exhaustive enumeration of all 3^7 (thorough 3^8) half-second traffic patterns x T in {0,1,2} x half-close pre-state on the real copy_bidi with harness-side timestamps; real-binary grid timeouts.idle x timeouts.udp x 6 tunnel kinds read back through /api/live, plus close timing",
   text="Every traffic pattern over 7 (8) half-second slots with alphabet {silent, client byte, origin byte}, for T = 0, 1, 2 s and for open / client-half-closed / origin-half-closed tunnels runs concurrently on the real copy_bidi: a tunnel is never closed for idleness less than T after a byte was sent (hard bound), is closed at most T + 1 s ticker + 1.5 s slack after the last byte, and T = 0 never closes. Real binary: the period reported by /api/live for http, socks5, reverse-tcp, socks5-UDP, reverse-UDP and http-UDP tunnels equals the configured (or default) value for every grid cell; silent tunnels with T=2 close in time, with T=0 stay.",
   note="Real clock (ContextStatistics uses SystemTime): bounds are one-sided so load only delays a verdict. Periods other than 0/1/2 s only through the wiring grid. QUIC and TPROXY listeners not in the wiring grid.",
   ref="DESIGN.md §3 C13")
CHECKS["C10"] = dict(cat="exploration", engine="E4 xnet (two real proxy hops, Python UDP clients and tagging echo origin)",
   technique="exhaustive grid enumeration on real sockets: UDP listener x connector x destination kind x payload size x first/later datagram, concurrent tagged sessions, fault injection (client port closed while the origin answers); lock-step, deadline verdicts re-run once",
   text="Every UDP-capable listener reachable from a Python client (SOCKS5 UDP associate, reverse UDP, HTTP CONNECT with Proxy-Protocol: udp inline) x every connector (direct, socks5, http inline, quic inline, quic datagrams; the last four through a second real hop) x destination {IPv4, IPv6, domain} x payload sizes 0..65000 x first/later datagram of a session: exactly one datagram with identical payload at the origin, reply back at the owner labelled with the origin's address; three concurrent sessions x 4 rounds never see each other's payload; a pending receive error never becomes a datagram.",
   note="Level 'exploration': only real UDP/QUIC sockets reach this code; kernel scheduling is uncontrolled and QUIC datagrams may shed load, so a lost-datagram verdict is re-run once. TPROXY UDP and a QUIC client as first hop are out of reach. The reassembly logic under reordering is model-checked in C11.",
   ref="DESIGN.md §3 C10")
CHECKS["C19"] = dict(cat="fault_enumeration", engine="E4 xnet (real binary, restartable Python upstreams and a second redproxy hop for QUIC)",
   technique="exhaustive fault-schedule enumeration on real sockets: connector kind x outage phase x fault kind (thorough: all pairs of outages), recovery probes with bounded attempts, control tunnel on a healthy upstream",
   text="For each connector kind {direct, http, socks5, quic, loadbalance[http,direct]} the upstream is stopped, killed with RST or restarted on the same port while idle, during the upstream handshake or mid-transfer; once it is reachable again a probe must succeed within 5 attempts of 4 s; tunnels and pending handshakes that were open across the outage must end; a long-lived control tunnel through a healthy upstream is checked during and after every outage; the proxy must stay alive.",
   note="Level 'fault_enumeration': kernel scheduling uncontrolled, deadlines one-sided. Silent packet loss with later recovery on the QUIC path is out of reach. Upstream kill = SIGKILL of the second hop / closing Python listeners.",
   ref="DESIGN.md §3 C19")
CHECKS["C07"] = dict(cat=MC, engine="E2 xseq (verdict-cache histories on the real AuthData, real clock) + E4 real binary (SOCKS negotiation, TLS grids)",
   technique="exhaustive enumeration of cache event histories (length<=4, thorough 5) vs a timestamped map reference; real-socket exhaustive grids: method-offer lists x credentials x auth configuration, TLS listener policy x presented certificate, TLS connector x insecure x upstream certificate",
   text="Verdict cache: every history over {check(u1,p1), check(u1,p2), check(u2,p1), flip the backend verdict, wait 0.4 s, wait 1.3 s} on a fresh real AuthData with an external-command backend and cache.timeout 1 s: a cached verdict is used only for the identical pair while younger than the timeout, otherwise the backend is consulted exactly once with exactly that pair. Real sockets: 4 listener auth configurations x all method-offer lists of length 0-3 x 9 credential pairs + SOCKS4 ids (routed iff acceptable; method 0 never chosen when required); 27 TLS-listener cells and 18 TLS-connector cells with certificates from a test CA, a foreign CA and a wrong name.",
   note="Real clock for the cache (ages within 150 ms of the timeout are discarded). The QUIC listener is reached through a front redproxy hop. Kernel scheduling uncontrolled in the E4 part.",
   ref="DESIGN.md §3 C07")
NOT_YET = "check not built yet in this revision (see DESIGN.md §3 for the planned model-checking design)"
def main():
    checks = []
    for pid in ALL:
        if pid not in CHECKS: continue
        c = CHECKS[pid]
        checks.append({
            "property_id": pid,
            "quick_cmd": f"bin/check {pid} quick",
            "thorough_cmd": f"bin/check {pid} thorough",
            "evidence_file": f"/verif/evidence/{pid}.json",
            "replay_cmd_template": f"bin/check {pid} --replay {{path}}",
            "engine": c["engine"],
            "level_claimed": {"category": c["cat"], "text": c["text"], "design_ref": c["ref"]},
            "level_note": c["note"],
            "technique": c["technique"],
        })
    hooks_commits = []
    try:
        out = subprocess.run(["git","-C","/repo","log","--format=%h %s"],capture_output=True,text=True).stdout
        hooks_commits = [l.split()[0] for l in out.splitlines() if l.split(' ',1)[1].startswith("verif-hook:")]
    except Exception: pass
    m = {
        "version": 1,
        "setup_cmd": "bin/setup",
        "hooks": {
            "guard": "cfg(redproxy_verif) / cfg(redproxy_verif_loom)",
            "enable": "the harness crate /verif/harness includes /repo/src/main.rs as its crate root; its build.rs emits --cfg redproxy_verif (and redproxy_verif_loom with feature loomlb); /repo's own builds never set them",
            "baseline_off_cmd": "cd /repo && cargo test --workspace --no-fail-fast --offline",
            "source_commits": hooks_commits,
            "add_only": True,
        },
        "engines": [
            {"name": "E1 xsched", "path": "harness/src/verif/xsched.rs", "serves_properties": ["C01", "C04", "C06", "C14", "C15", "C16"], "kind_free_text": "stateless deviation-bounded DFS over task schedules and scripted environment answers of real async code"},
            {"name": "E3 loom", "path": "harness/src/verif/c17.rs", "serves_properties": ["C17"], "kind_free_text": "loom exhaustive interleavings of the real load balancer (feature loomlb => cfg(redproxy_verif_loom))"},
            {"name": "E4 xnet", "path": "e4/", "serves_properties": ["C01", "C04", "C05", "C06", "C07", "C10", "C13", "C14", "C15", "C16", "C18", "C19"], "kind_free_text": "real-socket script/fault enumeration against the real binary (Python drivers, kernel scheduling uncontrolled)"},
            {"name": "E2 xseq", "path": "harness/src/verif/", "serves_properties": [p for p in CHECKS], "kind_free_text": "bounded-exhaustive operation-sequence / input-shape enumeration on the real code vs reference model"},
        ],
        "checks": checks,
        "notes": "All checks run as libtest tests of the harness crate, which compiles /repo's current working tree (include!(\"/repo/src/main.rs\")). bin/check maps outcomes to exit 0/1/2 (2 = machinery failure).",
        "not_applicable": [{"property_id": p, "reason": NOT_YET} for p in ALL if p not in CHECKS],
    }
    json.dump(m, open("/verif/MANIFEST.json","w"), indent=1)
main()
